package main

import (
	"fmt"
	"go/ast"
	"go/token"
	"golang.org/x/tools/go/packages"
	"math"
	"strings"
)

func init() { registry["C06"] = checkC06 }

// evalIR evaluates a symbolic IR value for a concrete DDP index value v and list length L (two's complement, 64 bit).
// ok=false when the tree contains something outside the small arithmetic/comparison vocabulary.
func evalIR(x *IRVal, v, L int64, lenField int64) (int64, bool) {
	return evalIREnv(x, &irEnv{ops: map[string]int64{"rhs": v, "index": v}, L: L, lenField: lenField})
}

type irEnv struct {
	ops      map[string]int64
	L        int64
	lenField int64
}

func evalIREnv(x *IRVal, env *irEnv) (int64, bool) {
	if x == nil {
		return 0, false
	}
	v, L, lenField := int64(0), env.L, env.lenField
	_ = v
	evalIR := func(y *IRVal, _ int64, _ int64, _ int64) (int64, bool) { return evalIREnv(y, env) }
	switch x.Op {
	case "loopvar":
		k, ok := env.ops["loopvar"]
		return k, ok
	case "select", "phi":
		if len(x.Args) != 3 {
			return 0, false
		}
		c, ok := evalIR(x.Args[0], v, L, lenField)
		if !ok {
			return 0, false
		}
		if c != 0 {
			return evalIR(x.Args[1], v, L, lenField)
		}
		return evalIR(x.Args[2], v, L, lenField)
	case "const":
		if x.K != nil {
			return *x.K, true
		}
		return 0, false
	case "operand":
		k, ok := env.ops[x.Src]
		return k, ok
	case "zext", "sext", "trunc":
		return evalIR(x.Args[0], v, L, lenField)
	case "load":
		// load(gep(list, 0, lenField))
		if len(x.Args) == 1 && x.Args[0].Op == "getelementptr" {
			g := x.Args[0]
			if len(g.Args) >= 3 && g.Args[len(g.Args)-1].K != nil && *g.Args[len(g.Args)-1].K == lenField && g.Args[0].Src != "ret" {
				return L, true
			}
		}
		return 0, false
	case "add", "sub", "and", "or", "xor":
		a, ok1 := evalIR(x.Args[0], v, L, lenField)
		b, ok2 := evalIR(x.Args[1], v, L, lenField)
		if !ok1 || !ok2 {
			return 0, false
		}
		switch x.Op {
		case "add":
			return a + b, true
		case "sub":
			return a - b, true
		case "and":
			return a & b, true
		case "or":
			return a | b, true
		}
		return a ^ b, true
	case "icmp":
		a, ok1 := evalIR(x.Args[0], v, L, lenField)
		b, ok2 := evalIR(x.Args[1], v, L, lenField)
		if !ok1 || !ok2 {
			return 0, false
		}
		var r bool
		switch x.Pred {
		case "IPredSLT":
			r = a < b
		case "IPredSLE":
			r = a <= b
		case "IPredSGT":
			r = a > b
		case "IPredSGE":
			r = a >= b
		case "IPredEQ":
			r = a == b
		case "IPredNE":
			r = a != b
		case "IPredULT":
			r = uint64(a) < uint64(b)
		case "IPredULE":
			r = uint64(a) <= uint64(b)
		case "IPredUGT":
			r = uint64(a) > uint64(b)
		case "IPredUGE":
			r = uint64(a) >= uint64(b)
		default:
			return 0, false
		}
		if r {
			return 1, true
		}
		return 0, true
	}
	return 0, false
}

type guardedAccess struct {
	cond    *IRVal
	index   *IRVal
	elseErr bool
	guarded bool
	pos     token.Pos
}

// accessesOf reads the event stream of one evaluation: every indexArray with its innermost enclosing if/else.
func accessesOf(events []Event) []guardedAccess {
	type frame struct {
		cond   *IRVal
		inThen bool
		idxs   []int // indices into out of accesses seen in the then-region
		err    bool
	}
	var st []*frame
	var out []guardedAccess
	for _, e := range events {
		switch e.Kind {
		case "ifelse-begin":
			cv, _ := e.Data[0].(*IRVal)
			st = append(st, &frame{cond: cv})
		case "then-begin":
			if len(st) > 0 {
				st[len(st)-1].inThen = true
			}
		case "then-end":
			if len(st) > 0 {
				st[len(st)-1].inThen = false
			}
		case "rterr":
			// counts for the innermost frame that is in its else-region
			for i := len(st) - 1; i >= 0; i-- {
				if !st[i].inThen {
					st[i].err = true
					break
				}
			}
		case "ifelse-end":
			if len(st) > 0 {
				f := st[len(st)-1]
				st = st[:len(st)-1]
				for _, i := range f.idxs {
					out[i].elseErr = f.err
				}
			}
		case "indexArray":
			ix, _ := e.Data[1].(*IRVal)
			ga := guardedAccess{index: ix, pos: e.Pos}
			for i := len(st) - 1; i >= 0; i-- {
				if st[i].inThen {
					ga.cond = st[i].cond
					ga.guarded = true
					st[i].idxs = append(st[i].idxs, len(out))
					break
				}
			}
			out = append(out, ga)
		}
	}
	return out
}

func checkC06(c *Check) {
	L := c.L
	c.Expl = "Structural clauses of 'out-of-domain operations stop with a Laufzeitfehler': every list element access whose index comes from a DDP index expression (value position and assignable/Referenz position, Zahl and Byte indices) lies in the then-branch of a generated test whose else-branch reaches the run-time error, and the test - extracted as a formula over (index, length) from the builder calls and evaluated on the finite model index ∈ [-3, len+3] ∪ {0..255 for Byte} ∪ {MinInt64, MaxInt64}, len ∈ [0,4] - is equivalent to 1 ≤ index ≤ len, the accessed element being index-1 (R6.1); slices clamp both bounds before the crossed-bounds test, which reaches the error (R6.2); the error exit prints 'Laufzeitfehler', ends in exit(exit_code) and every caller passes 1 (R6.3); casts of a Variable branch on the type comparison and the false arm reaches the error (R6.4); '...' reaches the error (R6.5); the text-index walk of the C runtime is followed by the end-of-text test (R6.6). Not decided: the text-index walk itself, clamping arithmetic beyond the finite model."
	cp := L.ByRel["src/compiler"]
	lenField := int64(1)
	if obj := cp.Types.Scope().Lookup("list_len_field_index"); obj != nil {
		if cst, ok := obj.(interface {
			Val() interface{ String() string }
		}); ok {
			fmt.Sscan(cst.Val().String(), &lenField)
		}
	}
	r1 := c.Rule("R6.1", "every indexed list access is guarded by a test equivalent to 1 <= index <= length whose failure reaches the run-time error", 4)
	in, mk := newGeneratorInterp(L)
	listT := &DT{Kind: "LIST", Elem: &DT{Kind: "ZAHL"}}
	type job struct {
		name string
		run  func(cobj *Obj, idx *DT)
	}
	binIdx := func() opInfo {
		for _, o := range operatorConsts(L, "BinaryOperator") {
			if o.Name == "BIN_INDEX" {
				return o
			}
		}
		return opInfo{}
	}()
	jobs := []job{
		{"VisitBinaryExpr BIN_INDEX (value position)", func(cobj *Obj, idx *DT) {
			node := genNode("ast.BinaryExpr", opVal(binIdx), []string{"lhs", "rhs"}, []*DT{listT, idx})
			in.CallFunc(L.Fn("src/compiler.(*compiler).VisitBinaryExpr"), cobj, []Val{node})
		}},
		{"evaluateAssignableOrReference Indexing (assignment target / Referenz)", func(cobj *Obj, idx *DT) {
			decl := newObj("ast.VarDecl")
			decl.set("Type", TypeV{listT})
			id := newObj("ast.Ident")
			id.set("Declaration", decl)
			ixn := astNode("ast.Ident", "index", idx, toGen(idx))
			ixn.set("temp", boolV(false))
			n := newObj("ast.Indexing")
			n.set("Lhs", id)
			n.set("Index", ixn)
			in.CallFunc(L.Fn("src/compiler.(*compiler).evaluateAssignableOrReference"), cobj, []Val{n, boolV(true)})
		}},
	}
	for _, jb := range jobs {
		for _, idx := range []*DT{{Kind: "ZAHL"}, {Kind: "BYTE"}} {
			key := jb.name + ", index " + idx.String()
			var problems []string
			nAcc := 0
			in.RunAll(32, func() {
				cobj := mk()
				jb.run(cobj, idx)
				for _, ga := range accessesOf(in.Events) {
					// only accesses whose index derives from the DDP index operand
					prov := ga.index.prov()
					if !inList("rhs", prov) && !inList("index", prov) {
						continue
					}
					nAcc++
					if !ga.guarded {
						problems = append(problems, "element access without a bounds test")
						continue
					}
					if !ga.elseErr {
						problems = append(problems, "the failing branch of the bounds test does not reach the run-time error")
					}
					// finite model
					var vals []int64
					if idx.Kind == "BYTE" {
						for v := int64(0); v < 256; v++ {
							vals = append(vals, v)
						}
					} else {
						vals = []int64{math.MinInt64, math.MinInt64 + 1, -3, -2, -1, 0, 1, 2, 3, 4, 5, 6, 7, math.MaxInt64 - 1, math.MaxInt64}
					}
					for Ln := int64(0); Ln <= 4; Ln++ {
						for _, v := range vals {
							cv, ok := evalIR(ga.cond, v, Ln, lenField)
							if !ok {
								problems = append(problems, "the bounds test is not a formula over (index, length): "+ga.cond.String())
								goto done
							}
							want := v >= 1 && v <= Ln
							if (cv != 0) != want {
								problems = append(problems, fmt.Sprintf("the bounds test %s admits index %d for length %d: %v, expected %v", ga.cond, v, Ln, cv != 0, want))
								goto done
							}
							if want {
								iv, ok := evalIR(ga.index, v, Ln, lenField)
								if !ok || iv != v-1 {
									problems = append(problems, fmt.Sprintf("for index %d the accessed element is %d, expected %d", v, iv, v-1))
									goto done
								}
							}
						}
					}
				done:
				}
			})
			if nAcc == 0 {
				r1.Und(key, token.NoPos, "no element access found in the evaluation")
				continue
			}
			r1.Decide(len(problems) == 0, key, token.NoPos, "guard ≡ 1 <= index <= length, element index-1, failure → Laufzeitfehler", strings.Join(uniq(problems), "; ")+": an index outside 1..length reads or writes outside the list instead of stopping with a Laufzeitfehler")
		}
	}

	// ---------------- R6.2 list slices ----------------
	r2 := c.Rule("R6.2", "slices clamp both bounds to 1..length before the crossed-bounds test, which reaches the error; the copied range is exactly clamp(i1)..clamp(i2)", 3)
	for _, elem := range []*GenT{{Kind: "int"}, {Kind: "string"}} {
		key := "createListSlice, element " + elem.String()
		var problems []string
		runs := 0
		in.RunAll(8, func() {
			cobj := mk()
			in.CallFunc(L.Fn("src/compiler.(*compiler).createListSlice"), cobj, []Val{&GenT{Kind: "list", Elem: elem}, boolV(false)})
			runs++
			if p := sliceModel(in.Events, lenField); p != "" {
				problems = append(problems, p)
			}
		})
		if runs == 0 {
			r2.Und(key, token.NoPos, "not evaluated")
			continue
		}
		r2.Decide(len(problems) == 0, key, token.NoPos, "finite model length 0..4 × bounds -2..7 and int64 extremes: empty list returns at once, crossed clamped bounds → Laufzeitfehler, otherwise elements clamp(i1)..clamp(i2) and nothing else are copied", strings.Join(uniq(problems), "; ")+": a list slice with out-of-range or crossed bounds reads outside the list or fails to stop with a Laufzeitfehler")
	}

	// ---------------- R6.4 Variable casts ----------------
	r4 := c.Rule("R6.4", "a cast of a Variable tests the held type and the mismatch arm reaches the run-time error", 6)
	anyT := &DT{Kind: "VARIABLE"}
	for _, target := range []*DT{{Kind: "ZAHL"}, {Kind: "KOMMAZAHL"}, {Kind: "BYTE"}, {Kind: "WAHRHEITSWERT"}, {Kind: "BUCHSTABE"}, {Kind: "TEXT"}, listT, {Kind: "STRUCT", Name: "Punkt"}} {
		node := genNode("ast.CastExpr", nil, []string{"lhs"}, []*DT{anyT})
		node.set("TargetType", TypeV{target})
		var problems []string
		n := 0
		in.RunAll(32, func() {
			cobj := mk()
			in.CallFunc(L.Fn("src/compiler.(*compiler).VisitCastExpr"), cobj, []Val{node})
			n++
			// the first if/else must be on compareAnyType and its else region must raise
			depth, inElse, sawCmp, errInElse := 0, false, false, false
			for _, e := range in.Events {
				switch e.Kind {
				case "ifelse-begin":
					depth++
					if depth == 1 {
						if cv, ok := e.Data[0].(*IRVal); ok && cv.Op == "compareAnyType" {
							sawCmp = true
						}
					}
				case "else-begin":
					if depth == 1 {
						inElse = true
					}
				case "else-end":
					if depth == 1 {
						inElse = false
					}
				case "ifelse-end":
					depth--
				case "rterr":
					if inElse && depth == 1 {
						errInElse = true
					}
				}
			}
			if !sawCmp {
				problems = append(problems, "no branch on the comparison of the held type with the target type")
			} else if !errInElse {
				problems = append(problems, "the mismatch branch does not reach the run-time error")
			}
		})
		r4.Decide(len(problems) == 0 && n > 0, "VisitCastExpr Variable → "+target.String(), token.NoPos, "type test with Laufzeitfehler on mismatch", strings.Join(uniq(problems), "; ")+": converting a Variable that holds another type yields garbage instead of stopping")
	}

	// R6.4 for type definitions: `v als Nummer` (Wir definieren eine Nummer als eine Zahl) must test for the definition's OWN
	// type tag (typeDefVTables[name of the definition]), not for the tag of the type it is defined as: a Variable holding a
	// plain Zahl is out of the domain of this conversion, one holding a Nummer is in it
	for _, base := range []*DT{{Kind: "ZAHL"}, {Kind: "TEXT"}} {
		target := &DT{Kind: "TYPEDEF", Name: "Nummer", Base: base}
		in2, mk2 := newGeneratorInterp(L)
		tdTag := &IRVal{Op: "operand", Src: "vtable of the definition", Class: "ptr"}
		in2.Models["compiler.(*compiler).mangledNameType"] = func(in *Interp, pkg *packages.Package, call *ast.CallExpr, recv Val, args []Val) (Val, bool) {
			if tv, ok := args[0].(TypeV); ok && tv.T != nil && tv.T.Kind == "TYPEDEF" {
				return StrV(tv.T.Name), true
			}
			return StrV("?other"), true
		}
		var compared []Val
		in2.Models["compiler.(*compiler).compareAnyType"] = func(in *Interp, pkg *packages.Package, call *ast.CallExpr, recv Val, args []Val) (Val, bool) {
			if len(args) == 2 {
				compared = append(compared, args[1])
			}
			return &IRVal{Op: "compareAnyType", Args: []*IRVal{asIR(args[0])}, Class: "i1"}, true
		}
		node := genNode("ast.CastExpr", nil, []string{"lhs"}, []*DT{anyT})
		node.set("TargetType", TypeV{target})
		var problems []string
		n := 0
		in2.RunAll(32, func() {
			compared = nil
			cobj := mk2()
			cobj.set("typeDefVTables", MapV{Keys: []Val{StrV("Nummer")}, Vals: []Val{tdTag}, Exact: true})
			in2.CallFunc(L.Fn("src/compiler.(*compiler).VisitCastExpr"), cobj, []Val{node})
			for _, e := range in2.Events {
				if e.Kind == "cerr" || e.Kind == "panic" {
					problems = append(problems, e.Kind+": "+e.Msg)
					return
				}
			}
			n++
			if len(compared) == 0 {
				problems = append(problems, "no comparison of the held type with the target type")
				return
			}
			for _, cv := range compared {
				if iv, ok := cv.(*IRVal); !ok || iv != tdTag {
					problems = append(problems, "the held type is compared with the tag of the underlying type (or an unknown tag), not with the tag of the definition itself")
				}
			}
		})
		r4.Decide(len(problems) == 0 && n > 0, "VisitCastExpr Variable → Typdefinition Nummer("+base.String()+")", token.NoPos, "the type test uses the definition's own tag", strings.Join(uniq(problems), "; ")+": a Variable holding a plain "+base.String()+" converts silently, one holding a Nummer stops with a Laufzeitfehler")
	}

	// ---------------- R6.5 todo ----------------
	r5 := c.Rule("R6.5", "an unimplemented '...' statement reaches the run-time error; Go call sites of the error exit pass status 1", 3)
	if fi := L.Fn("src/compiler.(*compiler).VisitTodoStmt"); fi != nil {
		calls := false
		ast.Inspect(fi.Decl.Body, func(n ast.Node) bool {
			if call, ok := n.(*ast.CallExpr); ok {
				if fn := Callee(cp.TypesInfo, call); fn != nil && nameIs(fn, "runtime_error") {
					calls = true
				}
			}
			return true
		})
		// unconditional: top-level statement
		top := false
		for _, st := range fi.Decl.Body.List {
			if es, ok := st.(*ast.ExprStmt); ok {
				if call, ok := es.X.(*ast.CallExpr); ok {
					if fn := Callee(cp.TypesInfo, call); fn != nil && nameIs(fn, "runtime_error") {
						top = true
					}
				}
			}
		}
		r5.Decide(calls && top, "compiler.(*compiler).VisitTodoStmt|runtime_error", fi.Decl.Pos(), "unconditionally raises the run-time error", "reaching '...' no longer stops the program with a Laufzeitfehler")
	}
	if re := L.Fn("src/compiler.(*compiler).runtime_error"); re != nil {
		for _, cs := range L.CallSites(re.Obj) {
			v, ok := constInt(cs.Fn.Pkg.TypesInfo, cs.Call.Args[0])
			r5.Decide(ok && v == 1, L.QName(cs.Fn.Obj)+"|runtime_error exit code", cs.Call.Pos(), "status 1", "a Laufzeitfehler raised here ends the program with a status other than 1")
		}
		// runtime_error itself ends the block with unreachable
		un := false
		ast.Inspect(re.Decl.Body, func(n ast.Node) bool {
			if call, ok := n.(*ast.CallExpr); ok {
				if fn := Callee(cp.TypesInfo, call); fn != nil && nameIs(fn, "NewUnreachable") {
					un = true
				}
			}
			return true
		})
		r5.Decide(un, "compiler.(*compiler).runtime_error|unreachable", re.Decl.Pos(), "the error call is followed by unreachable", "generated code continues after the call of ddp_runtime_error")
	}

	// ---------------- C side ----------------
	P, err := LoadC(repoDirC(), false)
	if err != nil {
		c.Rule("R6.3", "C error exit", 1).Und("lib/runtime", token.NoPos, err.Error())
		return
	}
	r3 := c.Rule("R6.3", "ddp_runtime_error prints 'Laufzeitfehler', ends in exit(exit_code); every C caller passes 1", 5)
	checkRuntimeError(c, P, r3)
	if f := P.Funcs["ddp_string_slice"]; f != nil {
		clamped := map[string]int{}
		var errLine, lastClamp int
		// the two bounds are the function's last two parameters (whatever they are called); the clamp helper is recognised
		// by what it does: three parameters, the first compared with the second by < and with the third by >
		pn := cParamNames(f)
		b1, b2 := "index1", "index2"
		if len(pn) >= 2 {
			b1, b2 = pn[len(pn)-2], pn[len(pn)-1]
		}
		isClamp := func(name string) bool {
			g := P.Funcs[name]
			if g == nil || g.Body == nil {
				return false
			}
			gp := cParamNames(g)
			if len(gp) != 3 {
				return false
			}
			// the clamped value is a DDP index, which may be negative: a helper with unsigned parameters wraps a negative
			// bound to a huge value and clamps it to the length instead of to 1
			for _, pn := range g.Node.Inner {
				if pn.Kind == "ParmVarDecl" && pn.Type != nil {
					t := pn.Type.QualType
					if pn.Type.Desugared != "" {
						t = pn.Type.Desugared
					}
					if strings.Contains(t, "unsigned") || strings.Contains(pn.Type.QualType, "size_t") || strings.Contains(pn.Type.QualType, "uint") {
						return false
					}
				}
			}
			lo, hi := false, false
			g.Body.walk(func(m *CNode) bool {
				if m.Kind == "BinaryOperator" && len(m.Inner) == 2 {
					l, rr := cstrip(m.Inner[0]).text(), cstrip(m.Inner[1]).text()
					if (m.Opcode == "<" && rr == gp[1]) || (m.Opcode == ">" && l == gp[1]) {
						lo = true
					}
					if (m.Opcode == ">" && rr == gp[2]) || (m.Opcode == "<" && l == gp[2]) {
						hi = true
					}
				}
				return true
			})
			return lo && hi
		}
		f.Body.walk(func(m *CNode) bool {
			if m.Kind == "BinaryOperator" && m.Opcode == "=" && len(m.Inner) == 2 {
				rhs := cstrip(m.Inner[1])
				if rhs.Kind == "CallExpr" && isClamp(rhs.calleeName()) {
					a := rhs.args()
					lo, ok := cIntValue(a[1])
					if ok && lo == 1 && cstrip(a[0]).text() == cstrip(m.Inner[0]).text() {
						clamped[cstrip(m.Inner[0]).text()] = m.line
						if m.line > lastClamp {
							lastClamp = m.line
						}
					}
				}
			}
			if m.Kind == "IfStmt" && len(m.Inner) >= 2 {
				cnd := cstrip(m.Inner[0])
				if cnd.Kind == "BinaryOperator" && (cnd.Opcode == "<" || cnd.Opcode == ">") && strings.Contains(cnd.text(), b1) && strings.Contains(cnd.text(), b2) {
					if len(callsIn2(m.Inner[1], "ddp_runtime_error")) > 0 {
						errLine = m.line
					}
				}
			}
			return true
		})
		ok := clamped[b1] > 0 && clamped[b2] > 0 && errLine > lastClamp
		st := OK
		if !ok {
			st = Bad
		}
		r2.AddAt(st, "C ddp_string_slice|clamp then crossed-bounds error", f.Pos(), pickMsg(st, "both bounds clamped to 1..length, then index2 < index1 → Laufzeitfehler / the text slice does not clamp both bounds to 1..length before testing for crossed bounds (or crossed bounds no longer stop the program)"))
	} else {
		r2.AddAt(Undecided, "C ddp_string_slice", "-", "function not found")
	}
	r6 := c.Rule("R6.6", "the text-index walk is followed by the end-of-text test before the character is read or replaced", 2)
	for _, name := range []string{"ddp_string_index", "ddp_replace_char_in_string"} {
		f := P.Funcs[name]
		if f == nil {
			r6.AddAt(Undecided, "C "+name, "-", "function not found")
			continue
		}
		// the walk may live in a helper the function calls (one level): analyse the function that contains it
		hasWalk := func(g *CFunc) bool {
			for _, st := range g.Body.Inner {
				if cIsLoop(st) && len(callsIn2(st, "utf8_num_bytes")) > 0 {
					return true
				}
			}
			return false
		}
		if !hasWalk(f) {
			var helper *CFunc
			f.Body.walk(func(m *CNode) bool {
				if m.Kind == "CallExpr" && helper == nil {
					if g := P.Funcs[m.calleeName()]; g != nil && strings.HasPrefix(g.Unit, "lib/runtime/") && hasWalk(g) {
						helper = g
					}
				}
				return true
			})
			if helper != nil {
				f = helper
			}
		}
		// statements of the body in order: a while loop stepping by utf8_num_bytes, then (next statement) if (str->str[i] == 0) ddp_runtime_error
		okc := false
		early := 0
		for i, st := range f.Body.Inner {
			if st.Kind == "IfStmt" && len(callsIn2(st, "ddp_runtime_error")) > 0 {
				early++
			}
			if cIsLoop(st) && len(callsIn2(st, "utf8_num_bytes")) > 0 && i+1 < len(f.Body.Inner) {
				nx := f.Body.Inner[i+1]
				if nx.Kind == "IfStmt" && len(callsIn2(nx, "ddp_runtime_error")) > 0 {
					// the test reads the byte the walk stopped at and compares it with the terminator: `str->str[i] == 0` or,
					// for a pointer walk, `*cur == 0`
					if cn := cstrip(nx.Inner[0]); cn != nil && cn.Kind == "BinaryOperator" && cn.Opcode == "==" && len(cn.Inner) == 2 {
						if k, isConst := cIntValue(cn.Inner[1]); isConst && k == 0 {
							l := cstrip(cn.Inner[0])
							if l != nil && (l.Kind == "ArraySubscriptExpr" || (l.Kind == "UnaryOperator" && l.Opcode == "*")) {
								okc = true
							}
						}
					}
				}
			}
		}
		st := OK
		if !okc || early < 2 {
			st = Bad
		}
		r6.AddAt(st, "C "+name+"|end-of-text test after the walk", f.Pos(), pickMsg(st, "index < 1 and index > cap are rejected first; after walking index-1 characters the terminator test reaches the error / the walk to the indexed character is not followed by a terminator test that raises the run-time error (or an early range test is missing): an index between the character count and the byte count reads or writes past the text"))
	}
}

// sliceModel runs the event stream of createListSlice as a straight-line program with nested if/else regions on a finite
// model and compares with the reference semantics. Returns "" or a description of the first disagreement.
func sliceModel(events []Event, lenField int64) string {
	vals := []int64{math.MinInt64, -2, -1, 0, 1, 2, 3, 4, 5, 6, 7, math.MaxInt64}
	clamp := func(v, lo, hi int64) int64 {
		if v < lo {
			v = lo
		}
		if v > hi {
			v = hi
		}
		return v
	}
	for Ln := int64(0); Ln <= 4; Ln++ {
		for _, i1 := range vals {
			for _, i2 := range vals {
				env := &irEnv{ops: map[string]int64{"index1": i1, "index2": i2}, L: Ln, lenField: lenField}
				type fr struct{ cond, inThen, parentActive bool }
				var st []fr
				active := func() bool {
					if len(st) == 0 {
						return true
					}
					f := st[len(st)-1]
					return f.parentActive && f.cond == f.inThen
				}
				outcome := ""
				var copied []int64
				haveCopy := false
				var lenStored *int64
				inFor := false
				var forVisited []int64
			loop:
				for _, e := range events {
					switch e.Kind {
					case "ifelse-begin":
						pa := active()
						cv, _ := e.Data[0].(*IRVal)
						k, ok := int64(0), true
						if pa {
							k, ok = evalIREnv(cv, env)
							if !ok {
								return "a branch condition is not a formula over (index1, index2, length): " + cv.String()
							}
						}
						st = append(st, fr{cond: k != 0, parentActive: pa})
					case "then-begin":
						st[len(st)-1].inThen = true
					case "else-begin":
						st[len(st)-1].inThen = false
					case "then-end", "else-end":
					case "ifelse-end":
						st = st[:len(st)-1]
					case "rterr":
						if active() {
							outcome = "error"
							break loop
						}
					case "term:NewRet":
						if active() && !inFor {
							outcome = "return"
							break loop
						}
					case "store":
						if !active() {
							continue
						}
						// store of the new length: target gep(ret, 0, lenField)
						if pv, ok := e.Data[1].(*IRVal); ok && pv.Op == "getelementptr" && len(pv.Args) >= 3 && pv.Args[0].Src == "ret" && pv.Args[len(pv.Args)-1].K != nil && *pv.Args[len(pv.Args)-1].K == lenField {
							if k, ok := evalIREnv(asIR(e.Data[0]), env); ok {
								kk := k
								lenStored = &kk
							}
						}
					case "memcpyArr":
						if !active() {
							continue
						}
						src, _ := e.Data[1].(*IRVal)
						if src == nil || src.Op != "elementptr" {
							return "the copy source is not an element of the list: " + fmt.Sprint(e.Data[1])
						}
						from, ok1 := evalIREnv(src.Args[1], env)
						n, ok2 := evalIREnv(asIR(e.Data[2]), env)
						if !ok1 || !ok2 {
							return "copy source/count is not a formula over (index1, index2, length)"
						}
						haveCopy = true
						for k := int64(0); k < n && k < 64; k++ {
							copied = append(copied, from+k)
						}
					case "for-begin":
						if !active() {
							continue
						}
						start, ok := evalIREnv(asIR(e.Data[0]), env)
						if !ok {
							return "loop start is not a formula over (index1, index2, length)"
						}
						cv := asIR(e.Data[1])
						for i := start; len(forVisited) < 64; i++ {
							env.ops["loopvar"] = i
							k, ok := evalIREnv(cv, env)
							if !ok {
								return "loop condition is not a formula over (i, index2, length): " + cv.String()
							}
							if k == 0 {
								break
							}
							forVisited = append(forVisited, i)
						}
						delete(env.ops, "loopvar")
						inFor = true
					case "indexArray":
						if inFor && active() {
							if ix, ok := e.Data[1].(*IRVal); ok && ix.Op == "loopvar" {
								if base, ok := e.Data[0].(*IRVal); ok && base.prov() != nil && inList("list", base.prov()) {
									haveCopy = true
									copied = append(copied, forVisited...)
								}
							}
						}
					case "for-end":
						inFor = false
					}
				}
				// reference
				want := ""
				var wantCopy []int64
				if Ln <= 0 {
					want = "return"
				} else {
					c1, c2 := clamp(i1, 1, Ln), clamp(i2, 1, Ln)
					if c2 < c1 {
						want = "error"
					} else {
						want = "return"
						for k := c1 - 1; k <= c2-1; k++ {
							wantCopy = append(wantCopy, k)
						}
					}
				}
				desc := fmt.Sprintf("length %d, bounds %d..%d", Ln, i1, i2)
				if outcome == "" {
					outcome = "return"
				}
				if outcome != want {
					return fmt.Sprintf("%s: generated code ends with %s, expected %s", desc, outcome, want)
				}
				if want == "return" && Ln > 0 {
					if !haveCopy {
						return desc + ": no element copy found"
					}
					if fmt.Sprint(copied) != fmt.Sprint(wantCopy) {
						return fmt.Sprintf("%s: copies elements %v (0-based), expected %v", desc, copied, wantCopy)
					}
					if lenStored == nil || *lenStored != int64(len(wantCopy)) {
						return fmt.Sprintf("%s: stored result length %v, expected %d", desc, lenStored, len(wantCopy))
					}
				} else if haveCopy && len(copied) > 0 {
					return fmt.Sprintf("%s: copies elements %v although the slice is empty/invalid", desc, copied)
				}
			}
		}
	}
	return ""
}

// pickMsg splits "ok text / bad text" by status.
func pickMsg(st Status, both string) string {
	parts := strings.SplitN(both, " / ", 2)
	if len(parts) != 2 {
		return both
	}
	if st == OK {
		return parts[0]
	}
	return parts[1]
}

// cIsLoop: a while, for or do loop of the C syntax tree (the form of a loop is free)
func cIsLoop(n *CNode) bool {
	return n != nil && (n.Kind == "WhileStmt" || n.Kind == "ForStmt" || n.Kind == "DoStmt")
}
